package checks

import (
	"fmt"
	"github.com/cnotch/ipchub/config"
	"io"
	"net/http"
	"strings"
	"sync"
	"sync/atomic"
	"time"

	"verifharness/kit"

	"github.com/cnotch/ipchub/media"
	"github.com/cnotch/ipchub/provider/route"
)

// C20 — on-demand pull creates, serves and cleans up streams under any camera behaviour.
//
// Fault enumeration: a scriptable fake camera misbehaves at every handshake step in every way; requesters
// (HTTP-FLV, RTSP) ask the in-process server for a routed path. Monitors: requester outcome, registry,
// connection counters, camera-side connection state, pull goroutine ledger (hook enter/exit), goroutine
// profile for reads that never time out.

func init() { kit.Register("C20", runC20) }

type c20env struct {
	c        *kit.Ctx
	srv      *kit.Server
	timeout  time.Duration
	pullOpen int64
	baseline kit.Counters
	// verdicts are decided by state, not by how fast the machine is: a wait that expires is extended (60 s, far beyond
	// the sum of all handshake timeouts) before the state it waited for is judged missing; after two such long waits
	// have ended in a verdict the extension is dropped for the rest of the shard (the violation is established)
	longFails int64
	slowWaits int64
	retries   int64
	progress  int64 // media units received by the requester of the current single-requester scenario
}

func (e *c20env) extra() time.Duration {
	if atomic.LoadInt64(&e.longFails) >= 2 {
		return 0
	}
	return 60 * time.Second
}

func (e *c20env) await(cond func() bool, base time.Duration) bool {
	if waitUntil(cond, base) {
		return true
	}
	if x := e.extra(); x > 0 && waitUntil(cond, x) {
		atomic.AddInt64(&e.slowWaits, 1)
		return true
	}
	atomic.AddInt64(&e.longFails, 1)
	return false
}

func (e *c20env) awaitOutcome(ch chan c20outcome, base time.Duration) (c20outcome, bool) {
	select {
	case o := <-ch:
		return o, true
	case <-time.After(base):
	}
	if x := e.extra(); x > 0 {
		select {
		case o := <-ch:
			atomic.AddInt64(&e.slowWaits, 1)
			return o, true
		case <-time.After(x):
		}
	}
	atomic.AddInt64(&e.longFails, 1)
	return c20outcome{}, false
}

// c20ConnLevel: the connection ended before the server produced any response. The multiplexed listener gives a new
// connection NetTimeout/3 (400 ms here) to show its first bytes; on a loaded machine the accepting goroutine can be
// scheduled later than that although the request was sent at once. The request never reached a service, so it is
// simply sent again; a server that keeps dropping the request still ends as an error outcome.
func c20ConnLevel(err error) bool {
	s := err.Error()
	return strings.Contains(s, "EOF") || strings.Contains(s, "connection reset") || strings.Contains(s, "broken pipe")
}

type c20outcome struct {
	kind   string // ok | notfound | closed | error:... | pending
	frames int
	ids    []uint32
}

// requesterFLV asks for /streams<path>.flv and reads until `until` is closed or the body ends.
func (e *c20env) requesterFLV(path string, until <-chan struct{}) chan c20outcome {
	ch := make(chan c20outcome, 1)
	go func() {
		var resp *http.Response
		for try := 0; ; try++ {
			req, _ := http.NewRequest("GET", "http://"+e.srv.Addr+"/streams"+path+".flv", nil)
			cl := &http.Client{}
			var err error
			if resp, err = cl.Do(req); err == nil {
				break
			}
			if try >= 3 || !c20ConnLevel(err) {
				ch <- c20outcome{kind: "error:" + err.Error()}
				return
			}
			atomic.AddInt64(&e.retries, 1)
			time.Sleep(100 * time.Millisecond)
		}
		defer resp.Body.Close()
		if resp.StatusCode == 404 {
			ch <- c20outcome{kind: "notfound"}
			return
		}
		if resp.StatusCode != 200 {
			ch <- c20outcome{kind: fmt.Sprintf("error:http-%d", resp.StatusCode)}
			return
		}
		hdr := make([]byte, 3)
		if _, err := io.ReadFull(resp.Body, hdr); err != nil || string(hdr) != "FLV" {
			ch <- c20outcome{kind: "closed"} // 200 but the body ended before any FLV: orderly close
			return
		}
		done := make(chan struct{})
		n := 0
		go func() {
			buf := make([]byte, 32*1024)
			for {
				k, err := resp.Body.Read(buf)
				n += k
				atomic.AddInt64(&e.progress, int64(k))
				if err != nil {
					close(done)
					return
				}
			}
		}()
		select {
		case <-done:
			ch <- c20outcome{kind: "closed", frames: n}
		case <-until:
			ch <- c20outcome{kind: "ok", frames: n}
		}
	}()
	return ch
}

// requesterRTSP plays the path over RTSP/TCP and collects the RTP timestamps it receives.
func (e *c20env) requesterRTSP(path string, until <-chan struct{}) chan c20outcome {
	ch := make(chan c20outcome, 1)
	go func() {
		cl, err := kit.DialRTSP(e.srv.Addr)
		if err != nil {
			ch <- c20outcome{kind: "error:dial"}
			return
		}
		defer cl.Close()
		cl.Timeout = 60 * time.Second
		code, err := cl.Play(e.srv.URL(path), 0, 2)
		if code == 404 {
			ch <- c20outcome{kind: "notfound"}
			return
		}
		if err != nil {
			if code == 0 {
				ch <- c20outcome{kind: "closed"}
			} else {
				ch <- c20outcome{kind: fmt.Sprintf("error:rtsp-%d", code)}
			}
			return
		}
		var out c20outcome
		out.kind = "ok"
		// a read that times out inside an item loses the bytes already taken: read without a short deadline and end
		// the reader by closing the connection when the scenario is over
		var over int32
		go func() {
			<-until
			atomic.StoreInt32(&over, 1)
			cl.Close()
		}()
		for {
			it, err := cl.Next(10 * time.Minute)
			if err != nil {
				if atomic.LoadInt32(&over) != 0 {
					ch <- out // still being served when the scenario ended
					return
				}
				if _, torn := err.(*kit.ErrTorn); torn {
					out.kind = "error:torn-stream:" + err.Error()
				} else {
					out.kind = "closed"
				}
				ch <- out
				return
			}
			if it.Frame != nil && it.Frame.Channel == 0 && len(it.Frame.Data) >= 12 {
				out.frames++
				atomic.AddInt64(&e.progress, 1)
				ts := uint32(it.Frame.Data[4])<<24 | uint32(it.Frame.Data[5])<<16 | uint32(it.Frame.Data[6])<<8 | uint32(it.Frame.Data[7])
				out.ids = append(out.ids, ts/3600)
			}
		}
	}()
	return ch
}

func (e *c20env) clean(cam *kit.FakeCam, path string) (bool, string) {
	var what string
	ok := e.await(func() bool {
		k := kit.Snapshot()
		switch {
		case media.Get(path) != nil:
			what = "stream-left-registered"
		case k.Rtsp != e.baseline.Rtsp:
			what = fmt.Sprintf("rtsp-connection-counter-%d-instead-of-%d", k.Rtsp, e.baseline.Rtsp)
		case cam.Open() != 0:
			what = "camera-connection-left-open"
		case atomic.LoadInt64(&e.pullOpen) != 0:
			what = "pull-goroutine-left-running"
		default:
			return true
		}
		return false
	}, 4*e.timeout+3*time.Second)
	return ok, what
}

func runC20(c *kit.Ctx) {
	// The server runs with a long network timeout (the multiplexed listener takes a third of it as the time a new
	// connection has to show its first bytes); only scripts in which the camera goes silent switch to the short one,
	// so that no verdict depends on the camera, the server and the requester being scheduled within 1.2 s of each other.
	timeout := 1200 * time.Millisecond
	srv := kit.StartServer(false, false, 30*time.Second)
	e := &c20env{c: c, srv: srv, timeout: timeout}
	kit.H.On("rtsp.pull.enter", nil, func(string, []interface{}) { atomic.AddInt64(&e.pullOpen, 1) })
	kit.H.On("rtsp.pull.exit", nil, func(string, []interface{}) { atomic.AddInt64(&e.pullOpen, -1) })
	e.baseline = kit.Snapshot()
	sh := fmt.Sprintf("c20s%d", c.Shard)

	steps := []string{"CONNECT", "OPTIONS", "DESCRIBE", "SETUP1", "SETUP2", "PLAY", "PLAYING"}
	faults := []string{"4xx", "5xx", "badstatus", "garbage", "silence", "rst", "eof", "401forever", "badsdp", "nofmt-sdp"}
	type scen struct {
		sc        kit.CamScript
		requester string
		name      string
	}
	var scens []scen
	// success scripts with each authentication kind and both requesters
	for _, a := range []string{"", "basic", "digest"} {
		for _, r := range []string{"flv", "rtsp"} {
			scens = append(scens, scen{kit.CamScript{Auth: a, User: "cam", Pass: "s3cret", FaultStep: "PLAYING", Fault: "eof", Packets: 150}, r, "success+disconnect/auth=" + a + "/" + r})
		}
	}
	for _, a := range []string{"", "basic", "digest"} {
		scens = append(scens, scen{kit.CamScript{Auth: a, User: "cam", Pass: "s3cret", FaultStep: "PLAYING", Fault: "eof", Packets: 150}, "flv", "success+disconnect/auth=" + a + "/flv/query"})
	}
	for _, st := range steps {
		for _, f := range faults {
			if (f == "badsdp" || f == "nofmt-sdp") && st != "DESCRIBE" {
				continue
			}
			if st == "CONNECT" && f != "rst" {
				continue
			}
			if st == "PLAYING" && (f == "4xx" || f == "5xx" || f == "badstatus" || f == "401forever") {
				continue
			}
			r := []string{"flv", "rtsp"}[len(scens)%2]
			auth := []string{"", "digest", "basic"}[len(scens)%3]
			scens = append(scens, scen{kit.CamScript{FaultStep: st, Fault: f, Auth: auth, User: "cam", Pass: "s3cret", Packets: 40}, r, fmt.Sprintf("fault/%s/%s/auth=%s/%s", st, f, auth, r)})
		}
	}
	reps := c.Pick(1, 20)
	idx := 0
	for rep := 0; rep < reps; rep++ {
		for si, sn := range scens {
			idx++
			if !c.Mine(idx) {
				continue
			}
			c20Run(e, sh, rep*len(scens)+si, sn.sc, sn.requester, sn.name)
		}
	}
	// a single requester whose pull's background goroutine is slow to start (seeded delay at rtsp.pull.enter)
	for li := 0; li < c.Pick(3, 30); li++ {
		idx++
		if !c.Mine(idx) {
			continue
		}
		c20RegistrationLag(e, sh, li)
	}
	// concurrency: several simultaneous first requests for one path
	nconc := c.Pick(16, 200)
	for ci := 0; ci < nconc; ci++ {
		idx++
		if !c.Mine(idx) {
			continue
		}
		c20Concurrent(e, sh, ci)
	}
	c.Count("waits_extended_beyond_base_watchdog_then_satisfied", atomic.LoadInt64(&e.slowWaits))
	c.Count("requests_resent_after_connection_closed_before_any_response", atomic.LoadInt64(&e.retries))
}

func c20Run(e *c20env, sh string, n int, sc kit.CamScript, requester, name string) {
	c := e.c
	c.Pre("C20 " + name)
	cam := kit.NewFakeCam()
	defer cam.Close()
	cam.SetScript(sc)
	if sc.Fault == "silence" || sc.FaultStep != "PLAYING" {
		// scripts whose expected outcome is a refusal anyway: a timeout caused by slow scheduling ends the same way
		config.VerifSetNetTimeout(e.timeout)
		defer config.VerifSetNetTimeout(30 * time.Second)
	}
	atomic.StoreInt64(&e.progress, 0)
	if sc.FaultStep == "PLAYING" {
		cam.HoldFault() // released once the requester is receiving (or has ended)
	}
	camAddr := cam.Addr
	if sc.FaultStep == "CONNECT" {
		cam.Close() // nobody listens
	}
	dir := fmt.Sprintf("/%s/d%d/", sh, n)
	reqPath := dir + "room/1"
	cred := ""
	if sc.Auth != "" {
		cred = sc.User + ":" + sc.Pass + "@"
	}
	routeURL := "rtsp://" + cred + camAddr + "/base"
	wantAsked := "DESCRIBE rtsp://" + camAddr + "/base/room/1 "
	if strings.HasSuffix(name, "/query") {
		// an exact route whose camera URL carries a query string (rtsp://host/cam/realmonitor?channel=1&subtype=0 style)
		routeURL = "rtsp://" + cred + camAddr + "/base/room/1?channel=1&subtype=0"
		wantAsked = "DESCRIBE rtsp://" + camAddr + "/base/room/1?channel=1&subtype=0 "
		route.Save(&route.Route{Pattern: reqPath, URL: routeURL})
		defer route.Del(reqPath)
	} else {
		route.Save(&route.Route{Pattern: dir, URL: routeURL})
		defer route.Del(dir)
	}
	detail := map[string]interface{}{"scenario": name, "route": dir + " -> " + routeURL, "request_path": reqPath}
	until := make(chan struct{})
	var ch chan c20outcome
	if requester == "flv" {
		ch = e.requesterFLV(reqPath, until)
	} else {
		ch = e.requesterRTSP(reqPath, until)
	}
	c.Eval(1)
	c.Distinct(name)
	c.SetAdd("scripts", fmt.Sprintf("%s/%s", sc.FaultStep, sc.Fault))
	success := sc.FaultStep == "PLAYING"
	if success {
		// the camera goes away only after the requester has started to receive (FLV: beyond the file header and the
		// sequence headers), or has already been told off
		need := int64(1)
		if requester == "flv" {
			need = 600
		}
		released := false
		for i := 0; i < 70000 && !released; i++ {
			if atomic.LoadInt64(&e.progress) >= need || len(ch) > 0 {
				released = true
			}
			time.Sleep(time.Millisecond)
		}
		cam.ReleaseFault()
	}
	out, answered := e.awaitOutcome(ch, 6*e.timeout+4*time.Second)
	if !answered {
		// state decides: is a pull handshake goroutine parked in a network read long after NetTimeout?
		parked := 0
		for _, g := range kit.Goroutines() {
			if (g.Has("rtsp.(*PullClient).receiveResponse") || g.Has("rtsp.(*PullClient).requestWithResponse")) && strings.Contains(g.State, "IO wait") {
				parked++
			}
		}
		detail["cam_requests"] = cam.Conns()
		detail["pull_handshake_goroutines_parked_in_read"] = parked
		if parked > 0 {
			c.Violation(fmt.Sprintf("C20:requester-hangs:handshake-read-without-deadline:%s", sc.FaultStep), detail)
		} else if success {
			c.Inconclusive("requester still being served when the watchdog fired: " + name)
		} else {
			c.Violation(fmt.Sprintf("C20:requester-hangs:%s/%s", sc.FaultStep, sc.Fault), detail)
		}
		close(until)
		cam.Close()
		<-ch
		e.clean(cam, reqPath)
		return
	}
	close(until)
	detail["requester_outcome"] = out.kind
	detail["cam_requests"] = cam.Conns()
	c.SetAdd("requester_outcomes", fmt.Sprintf("%s/%s->%s", sc.FaultStep, sc.Fault, out.kind))
	if strings.HasPrefix(out.kind, "error:") {
		c.Violation(fmt.Sprintf("C20:requester-outcome-not-notfound-or-orderly-close:%s/%s", sc.FaultStep, sc.Fault), detail)
	}
	if success {
		// the stream was served and then the camera went away: the requester must have received media first
		if out.frames == 0 {
			c.Violation("C20:success-script:no-media-reached-requester:auth="+sc.Auth+":"+requester, detail)
		}
		if requester == "rtsp" {
			for i := 1; i < len(out.ids); i++ {
				if out.ids[i] != out.ids[i-1]+1 {
					detail["ids"] = out.ids
					c.Violation("C20:success-script:packets-not-in-order-exactly-once", detail)
					break
				}
			}
		}
		// camera must have been asked for base + remainder of the path and with valid credentials
		conns := cam.Conns()
		okURL, okAuth := false, sc.Auth == ""
		for _, cc := range conns {
			for _, r := range cc.Requests {
				if strings.Contains(r, wantAsked) {
					okURL = true
				}
				if strings.Contains(r, "auth=ok") {
					okAuth = true
				}
			}
		}
		if !okURL {
			c.Violation("C20:camera-asked-for-wrong-url", detail)
		}
		if !okAuth {
			c.Violation("C20:camera-never-received-valid-credentials:"+sc.Auth, detail)
		}
	}
	if ok, what := e.clean(cam, reqPath); !ok {
		detail["leak"] = what
		detail["goroutines_pull"] = len(kit.FindGoroutines("rtsp.(*PullClient)"))
		c.Violation(fmt.Sprintf("C20:leak:%s:%s/%s", strings.SplitN(what, "-instead", 2)[0], sc.FaultStep, sc.Fault), detail)
		return
	}
	// a later request pulls afresh
	if sc.FaultStep != "CONNECT" {
		before := len(cam.Conns())
		cam.SetScript(kit.CamScript{Auth: sc.Auth, User: sc.User, Pass: sc.Pass, FaultStep: "PLAYING", Fault: "eof", Packets: 30})
		until2 := make(chan struct{})
		ch2 := e.requesterFLV(reqPath, until2)
		select {
		case o2 := <-ch2:
			// the camera records a connection when its accept loop gets to run: wait for that by state
			if !e.await(func() bool { return len(cam.Conns()) > 0 }, time.Second) && before >= 0 {
				detail["second_outcome"] = o2.kind
				c.Violation(fmt.Sprintf("C20:later-request-did-not-reach-camera:%s/%s", sc.FaultStep, sc.Fault), detail)
			}
		case <-time.After(6*e.timeout + 64*time.Second):
			c.Inconclusive("second request not finished within watchdog: " + name)
		}
		close(until2)
		e.clean(cam, reqPath)
	}
}

func c20Concurrent(e *c20env, sh string, ci int) {
	c := e.c
	rng := c.SubRng("c20conc", ci)
	n := 2 + rng.Intn(7)
	forced := ci%2 == 1
	if forced {
		n = 2
	}
	name := fmt.Sprintf("concurrent/%d-requesters", n)
	if forced {
		name = "concurrent/2-requesters/first-registered-pull-displaced-before-its-requester-attaches"
	}
	c.Pre("C20 " + name)
	cam := kit.NewFakeCam()
	defer cam.Close()
	cam.SetScript(kit.CamScript{FaultStep: "PLAYING", Fault: "silence", Packets: 1 << 30})
	dir := fmt.Sprintf("/%s/c%d/", sh, ci)
	reqPath := dir + "x"
	route.Save(&route.Route{Pattern: dir, URL: "rtsp://" + cam.Addr + "/b/"})
	defer route.Del(dir)
	until := make(chan struct{})
	var chans []chan c20outcome
	pert := kit.H.Perturb([]string{"media.getorcreate.missed", "media.regist.loaded"}, nil, int64(ci)+c.Seed, 0.7, 2*time.Millisecond)
	// every pull stream created for the path, in registration order
	var pmu sync.Mutex
	var pulled []*media.Stream
	hadConsumer := map[*media.Stream]bool{} // streams a consumer attached to while they were live
	pert = append(pert, kit.H.On("media.regist.loaded", nil, func(_ string, a []interface{}) {
		if st, ok := a[0].(*media.Stream); ok && st.Path() == reqPath {
			pmu.Lock()
			pulled = append(pulled, st)
			pmu.Unlock()
		}
	}), kit.H.On("media.join.registered", nil, func(_ string, a []interface{}) {
		if st, ok := a[0].(*media.Stream); ok && st.Path() == reqPath && media.VerifStatus(st) == media.StreamOK {
			pmu.Lock()
			hadConsumer[st] = true
			pmu.Unlock()
		}
	}))
	if forced {
		// Forced ordering (each step is released after 3 s at the latest, so nothing can hang): both requesters miss
		// the registry before either has pulled; the requester whose pull registers first is held before it attaches
		// until the second pull has registered too - the first pull stream is then displaced with no consumer, must
		// be closed at once and must let go of the camera.
		var missed, regs, joins int32
		bar, both := make(chan struct{}), make(chan struct{})
		pert = append(pert,
			kit.H.On("media.getorcreate.missed", nil, func(_ string, a []interface{}) {
				if p, _ := a[0].(string); !strings.Contains(p, dir) {
					return
				}
				if atomic.AddInt32(&missed, 1) == 1 {
					select {
					case <-bar:
					case <-time.After(3 * time.Second):
					}
				} else if atomic.LoadInt32(&missed) == 2 {
					close(bar)
				}
			}),
			kit.H.On("media.regist.loaded", nil, func(_ string, a []interface{}) {
				if st, ok := a[0].(*media.Stream); ok && st.Path() == reqPath && atomic.AddInt32(&regs, 1) == 2 {
					close(both)
				}
			}),
			kit.H.On("media.join.begin", nil, func(_ string, a []interface{}) {
				if st, ok := a[0].(*media.Stream); ok && st.Path() == reqPath && atomic.AddInt32(&joins, 1) == 1 {
					select {
					case <-both:
						time.Sleep(30 * time.Millisecond) // the second Regist swaps right after its hook point
						c.Count("forced_loser_without_consumer_orderings", 1)
					case <-time.After(3 * time.Second):
					}
				}
			}))
	}
	var finished int64 // requesters whose session has already ended (refused, or closed with their stream)
	for i := 0; i < n; i++ {
		var in chan c20outcome
		if i%2 == 0 {
			in = e.requesterFLV(reqPath, until)
		} else {
			in = e.requesterRTSP(reqPath, until)
		}
		out := make(chan c20outcome, 1)
		go func() { o := <-in; atomic.AddInt64(&finished, 1); out <- o }()
		chans = append(chans, out)
	}
	// let every requester either be served or be told off: wait until the camera has streamed to someone and the
	// number of camera connections has been stable for a while
	e.await(func() bool { return media.Get(reqPath) != nil }, 8*time.Second)
	last, stable := -1, 0
	waitUntil(func() bool {
		n := len(cam.Conns())
		if n == last {
			stable++
		} else {
			last, stable = n, 0
		}
		time.Sleep(20 * time.Millisecond)
		return stable > 25
	}, 8*time.Second)
	reg := 0
	if media.Get(reqPath) != nil {
		reg = 1
	}
	sc, _ := media.Count()
	detail := map[string]interface{}{"scenario": name, "requesters": n, "camera_connections": len(cam.Conns())}
	c.Eval(1)
	c.Distinct(name)
	c.SetAdd("concurrency_levels", fmt.Sprint(n))
	if reg != 1 || sc-e.baseline.Streams != 1 {
		detail["registered_for_path"] = reg
		detail["streams_total"] = sc - e.baseline.Streams
		c.Violation("C20:concurrent-first-requests:not-exactly-one-registered-stream", detail)
	}
	// A pull stream that lost the registration race is displaced. If it has consumers at that moment it lives on (and is
	// closed by the periodic zero-consumer task some minutes after the last one left: an idle policy, not a leak); a
	// displaced pull stream that NEVER had a consumer is closed at once and must let go of the camera. While the
	// camera keeps streaming to everybody, the number of open camera connections can therefore not stay above the
	// number of pull streams that are registered, have a consumer, or had one while they were live.
	if reg == 1 {
		entitled := func() int {
			pmu.Lock()
			defer pmu.Unlock()
			k := 0
			cur := media.Get(reqPath)
			for _, st := range pulled {
				if st == cur || st.ConsumerCount() > 0 || hadConsumer[st] {
					k++
				}
			}
			return k
		}
		if !e.await(func() bool { return cam.Open() <= entitled() }, 5*time.Second) {
			detail["camera_connections_open"] = cam.Open()
			detail["pull_streams_registered_or_with_consumers_now_or_earlier"] = entitled()
			detail["pull_streams_created"] = len(pulled)
			detail["open_pull_goroutines"] = atomic.LoadInt64(&e.pullOpen)
			c.Violation("C20:concurrent-first-requests:pull-without-requester-keeps-its-camera-connection", detail)
		} else {
			c.SetAdd("concurrent_open_camera_connections_vs_entitled_pull_streams", fmt.Sprintf("%d<=%d", cam.Open(), entitled()))
		}
	}
	// the camera drops every connection: every requester - also those attached to a pull stream that lost the
	// registration race and was displaced - must now see an orderly close
	kit.RemoveAll(pert)
	cam.Close()
	released := 0
	for _, ch := range chans {
		if o, answered := e.awaitOutcome(ch, 6*e.timeout+4*time.Second); answered {
			if o.kind == "ok" || o.kind == "closed" || o.kind == "notfound" {
				released++
			} else {
				detail["outcome"] = o.kind
				c.Violation("C20:concurrent-first-requests:requester-outcome", detail)
			}
		} else {
			detail["released"] = released
			detail["open_pull_goroutines"] = atomic.LoadInt64(&e.pullOpen)
			c.Violation("C20:concurrent-first-requests:requester-not-released-after-camera-disconnect", detail)
		}
	}
	close(until)
	if ok, what := e.clean(cam, reqPath); !ok {
		detail["leak"] = what
		c.Violation("C20:leak:"+strings.SplitN(what, "-instead", 2)[0]+":concurrent", detail)
	}
}

// c20RegistrationLag: ONE requester asks for a routed path over RTSP (DESCRIBE, SETUP, SETUP, PLAY - each of which
// looks the path up again). The goroutine that serves the pulled stream is delayed at its first hook point
// (rtsp.pull.enter, 300 ms, outside every lock), as it is on a loaded machine. The one request must still cause ONE
// pull, and the requester must receive the camera's media.
func c20RegistrationLag(e *c20env, sh string, li int) {
	c := e.c
	name := "single-requester/pull-goroutine-starts-late"
	c.Pre("C20 " + name)
	cam := kit.NewFakeCam()
	defer cam.Close()
	cam.SetScript(kit.CamScript{FaultStep: "PLAYING", Fault: "silence", Packets: 1 << 30})
	dir := fmt.Sprintf("/%s/lag%d/", sh, li)
	reqPath := dir + "x"
	route.Save(&route.Route{Pattern: dir, URL: "rtsp://" + cam.Addr + "/b/"})
	defer route.Del(dir)
	lag := kit.H.On("rtsp.pull.enter", nil, func(string, []interface{}) { time.Sleep(300 * time.Millisecond) })
	defer lag.Remove()
	atomic.StoreInt64(&e.progress, 0)
	until := make(chan struct{})
	ch := e.requesterRTSP(reqPath, until)
	served := e.await(func() bool { return atomic.LoadInt64(&e.progress) >= 5 || len(ch) > 0 }, 10*time.Second)
	conns := len(cam.Conns())
	detail := map[string]interface{}{"scenario": name, "camera_connections": conns, "cam_requests": cam.Conns()}
	c.Eval(1)
	c.Distinct(name)
	if conns > 1 {
		c.Violation("C20:single-request-caused-more-than-one-pull", detail)
	}
	if !served || atomic.LoadInt64(&e.progress) < 5 {
		out := "pending"
		if len(ch) > 0 {
			o := <-ch
			out = o.kind
			ch <- o
		}
		detail["requester_outcome"] = out
		c.Violation("C20:success-script:no-media-reached-requester:pull-goroutine-starts-late", detail)
	} else {
		c.Count("single_requester_served_with_late_pull_goroutine", 1)
	}
	close(until)
	cam.Close()
	e.awaitOutcome(ch, 6*e.timeout+4*time.Second)
	e.clean(cam, reqPath)
}
