// vrun runs one shard of one property check.
//
//	vrun <prop> <tier> <seed> <outdir> <shard> <nshards>
package main

import (
	"fmt"
	"os"
	"strconv"

	"verifharness/kit"

	_ "verifharness/checks"
)

func main() {
	if len(os.Args) < 7 {
		fmt.Fprintln(os.Stderr, "usage: vrun <prop> <tier> <seed> <outdir> <shard> <nshards>; props:", kit.Props())
		os.Exit(2)
	}
	prop, tier := os.Args[1], os.Args[2]
	seed, _ := strconv.ParseInt(os.Args[3], 10, 64)
	outdir := os.Args[4]
	shard, _ := strconv.Atoi(os.Args[5])
	nshards, _ := strconv.Atoi(os.Args[6])
	f := kit.Lookup(prop)
	if f == nil {
		fmt.Fprintln(os.Stderr, "unknown property", prop)
		os.Exit(2)
	}
	kit.InstallLogSink()
	c := kit.NewCtx(prop, tier, seed, shard, nshards, outdir)
	f(c)
	if err := c.Finish(); err != nil {
		fmt.Fprintln(os.Stderr, "finish:", err)
		os.Exit(2)
	}
}
