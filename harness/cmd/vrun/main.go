// vrun runs one shard of one property check.
//
//	vrun <prop> <tier> <seed> <outdir> <shard> <nshards>
package main

import (
	"fmt"
	"os"
	"runtime/debug"
	"strconv"
	"strings"

	"verifharness/kit"

	_ "verifharness/checks"
)

func main() {
	if len(os.Args) < 7 {
		fmt.Fprintln(os.Stderr, "usage: vrun <prop> <tier> <seed> <outdir> <shard> <nshards>; props:", kit.Props())
		os.Exit(2)
	}
	prop, tier := os.Args[1], os.Args[2]
	seed, _ := strconv.ParseInt(os.Args[3], 10, 64)
	outdir := os.Args[4]
	shard, _ := strconv.Atoi(os.Args[5])
	nshards, _ := strconv.Atoi(os.Args[6])
	f := kit.Lookup(prop)
	if f == nil {
		fmt.Fprintln(os.Stderr, "unknown property", prop)
		os.Exit(2)
	}
	kit.InstallLogSink()
	c := kit.NewCtx(prop, tier, seed, shard, nshards, outdir)
	func() {
		defer func() {
			r := recover()
			if r == nil {
				return
			}
			st := string(debug.Stack())
			// a panic raised inside ipchub code (called synchronously by the check) is ipchub's: let the process die
			// with its trace, check.py attributes it. A panic in the oracle itself must not discard what the shard
			// has observed so far: it becomes an INCONCLUSIVE entry and the shard's results are still written.
			if i := strings.Index(st, "\npanic("); i >= 0 {
				first := ""
				for _, ln := range strings.Split(st[i+1:], "\n")[1:] {
					if ln == "" || ln[0] == '\t' || strings.HasPrefix(ln, "runtime.") || strings.HasPrefix(ln, "panic(") {
						continue
					}
					first = ln // the function that panicked
					break
				}
				if strings.Contains(first, "github.com/cnotch/ipchub/") {
					panic(r)
				}
				c.Inconclusive(fmt.Sprintf("oracle panicked (%v) at %s", r, strings.TrimSpace(first)))
				return
			}
			c.Inconclusive(fmt.Sprintf("oracle panicked (%v)", r))
		}()
		f(c)
	}()
	if err := c.Finish(); err != nil {
		fmt.Fprintln(os.Stderr, "finish:", err)
		os.Exit(2)
	}
}
