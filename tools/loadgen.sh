#!/bin/bash
# loadgen.sh <n> <cmd...>: run <cmd> while <n> busy loops compete for the CPUs (robustness of verdicts against load).
n=$1; shift
pids=()
for i in $(seq $n); do ( while :; do :; done ) & pids+=($!); done
trap 'kill "${pids[@]}" 2>/dev/null' EXIT
"$@"
