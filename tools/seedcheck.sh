#!/bin/bash
# seedcheck.sh <SEED-ID> <worktree> <check1> [check2 ...]
# Verifies a seeded change (demo fails with it / passes without it, repo tests still pass),
# stores it under /verif/seeded/<SEED-ID>/ and runs the given quick checks against /repo with the patch applied.
export GOFLAGS=-mod=mod GOPROXY=off GOSUMDB=off GOTOOLCHAIN=local
id=$1; wt=$2; shift 2
out=/verif/seeded/$id; mkdir -p $out
cd $wt || exit 2
git diff -- . ':(exclude)seed_demo' > $out/patch.diff
[ -s $out/patch.diff ] || { echo "empty patch"; exit 2; }
rm -rf $out/demo; mkdir -p $out/demo
[ -d seed_demo ] && cp -r seed_demo/* $out/demo/
for f in $(git status --porcelain | grep '^??' | awk '{print $2}' | grep '_seed_test.go$'); do mkdir -p $out/demo/$(dirname $f); cp $f $out/demo/$f; done
echo "== patch"; cat $out/patch.diff | head -60
demo_pkgs="./seed_demo/"
[ -d seed_demo ] || demo_pkgs=$(git status --porcelain | grep '^??' | awk '{print $2}' | grep '_seed_test.go$' | xargs -n1 dirname | sort -u | sed 's|^|./|')
echo "== demo WITH change ($demo_pkgs)"
go test -vet=off -count=1 -tags verif $demo_pkgs 2>&1 | tail -5; with=${PIPESTATUS[0]}
git diff -- . ':(exclude)seed_demo' > /tmp/$id.patch
git apply -R /tmp/$id.patch
echo "== demo WITHOUT change"
go test -vet=off -count=1 -tags verif $demo_pkgs 2>&1 | tail -3; without=${PIPESTATUS[0]}
git apply /tmp/$id.patch
echo "demo: with=$with (want !=0) without=$without (want 0)"
echo "== repo tests with change"
go build ./... && go build -tags verif ./... && go test -vet=off -count=1 $(go list ./... | grep -v seed_demo) 2>&1 | grep -v "^ok\|no test files" | grep -v "av/format/flv\|av/format/mpegts\|av/format/rtp\|^---\|^    \|^FAIL$\|panic\|goroutine\|^\s\|^$\|testing\.\|created by\|exit status" | head
# SEED_REPO=<checkout of /repo's HEAD> applies the patch there instead of /repo (check.py builds against it via VERIF_REPO),
# so that /repo stays untouched while something else uses it
repo=${SEED_REPO:-/repo}
echo "== applying to $repo and running checks: $*"
cd $repo && git status --short | grep -v '^??' | head -3
if ! git apply --check $out/patch.diff 2>/dev/null; then echo "PATCH DOES NOT APPLY to current HEAD of $repo"; echo "(not applied)"; fi
git apply $out/patch.diff 2>/dev/null
for chk in "$@"; do
  echo "-- check $chk"
  if [ "$repo" = /repo ]; then
    (cd /verif && python3 check.py $chk quick 2>&1 | grep -v "counter\|  set " | tail -6)
  else
    (cd /verif && VERIF_REPO=$repo python3 check.py $chk quick 2>&1 | grep -v "counter\|  set " | tail -6)
  fi
done
git -C $repo checkout -- . ; git -C $repo status --short | grep -v '^??' | head -3
echo "with=$with without=$without" > $out/verify.txt
