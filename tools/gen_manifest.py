#!/usr/bin/env python3
"""Regenerates MANIFEST.json from props.py (claimed checks) and properties.jsonl."""
import json, os, subprocess, sys
ROOT = os.path.dirname(os.path.dirname(os.path.abspath(__file__)))
sys.path.insert(0, ROOT)
from props import PROPS, NOT_APPLICABLE
ids = [json.loads(l)["id"] for l in open(os.path.join(ROOT, "properties.jsonl"))]
try:
    commits = subprocess.check_output(["git", "-C", "/repo", "log", "--format=%h %s"], text=True).splitlines()
    hook_commits = [c.split()[0] for c in commits if c.split(" ", 1)[1].startswith("verif hooks")]
except Exception:
    hook_commits = []
checks = []
for pid in ids:
    if pid not in PROPS:
        continue
    p = PROPS[pid]
    checks.append(dict(
        property_id=pid,
        quick_cmd="python3 check.py %s quick" % pid,
        thorough_cmd="python3 check.py %s thorough" % pid,
        evidence_file="/verif/evidence/%s.json" % pid,
        replay_cmd_template="cat {path}",
        engine="vrun",
        level_claimed=dict(category=p["level"], text=p["level_text"], design_ref="DESIGN.md section 4, " + pid),
        level_note=p["level_note"],
        technique=p["technique"],
    ))
na = [dict(property_id=pid, reason=NOT_APPLICABLE.get(pid, "check not built yet in this session; see DESIGN.md section 4 for the intended monitor"))
      for pid in ids if pid not in PROPS]
m = dict(
    version=1,
    setup_cmd="./setup.sh",
    hooks=dict(guard="verif", enable="go build -tags verif (harness module replaces github.com/cnotch/ipchub by /repo)",
               baseline_off_cmd="/verif/tools/baseline_off.sh", source_commits=hook_commits, add_only=True),
    engines=[dict(name="vrun", path="/verif/harness", serves_properties=sorted(PROPS),
                  kind_free_text="Go harness running the real ipchub code (tag verif) under generated/hostile workloads with monitors, race detector, hook-driven schedule control; orchestrated by check.py")],
    checks=checks,
    notes="Runtime monitoring and sanitizers only. check.py <ID> <quick|thorough>; VERIF_SEED selects the PRNG seed. Known findings: known_findings.txt.",
    not_applicable=na,
)
json.dump(m, open(os.path.join(ROOT, "MANIFEST.json"), "w"), indent=1)
print("claimed:", [c["property_id"] for c in checks], "not claimed:", [n["property_id"] for n in na])
