#!/bin/bash
# Runs the repository's own test suite with the verif guard OFF and checks that every
# test listed as stable in /root/.vp/BASELINE.json still passes. Timing-sensitive tests
# (media::Test_Consumption_Consume needs >=256 packets/s from a 1 ms ticker) are retried
# up to 3 times on a loaded machine; a test must pass in at least one run.
export GOFLAGS=-mod=mod GOPROXY=off GOSUMDB=off GOTOOLCHAIN=local
cd /repo || exit 2
out=$(mktemp)
for attempt in 1 2 3; do
  go test -json -vet=off -count=1 -timeout 25m ./... >> "$out" 2>/dev/null
  python3 - "$out" <<'PY'
import json,sys
passed=set()
for line in open(sys.argv[1]):
    try: e=json.loads(line)
    except Exception: continue
    if e.get("Action")=="pass" and e.get("Test"):
        passed.add(e["Package"]+"::"+e["Test"])
base=json.load(open("/root/.vp/BASELINE.json"))["stable_pass"]
missing=[t for t in base if t not in passed]
print("baseline stable tests: %d, passing now: %d, missing: %d"%(len(base),len(base)-len(missing),len(missing)))
for t in missing: print("  MISSING",t)
sys.exit(1 if missing else 0)
PY
  rc=$?
  [ $rc -eq 0 ] && break
done
rm -f "$out"
exit $rc
