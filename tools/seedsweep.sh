#!/bin/bash
# seedsweep.sh [ids...]: applies every kept seeded change to /repo in turn, runs the quick check of its property and
# reports whether the check raises a VIOLATION (it must). /repo is restored after each seed. Not a registered check.
cd /verif
# SEED_REPO=<checkout of /repo's HEAD>: apply the patches there (check.py builds against it through VERIF_REPO and keeps
# its evidence out of /verif/evidence), so that /repo and the committed evidence stay untouched
repo=${SEED_REPO:-/repo}
ids=("$@")
[ ${#ids[@]} -eq 0 ] && ids=($(ls seeded))
for id in "${ids[@]}"; do
  prop=${id%%-*}
  if ! git -C $repo apply --check /verif/seeded/$id/patch.diff 2>/dev/null; then echo "$id: PATCH DOES NOT APPLY"; continue; fi
  git -C $repo apply /verif/seeded/$id/patch.diff
  if [ "$repo" = /repo ]; then out=$(python3 check.py $prop quick 2>&1); rc=$?; else out=$(VERIF_REPO=$repo python3 check.py $prop quick 2>&1); rc=$?; fi
  git -C $repo checkout -- . 
  n=$(echo "$out" | grep -c "^VIOLATION")
  infra=$(echo "$out" | grep -c "^INFRA")
  if [ $n -gt 0 ]; then echo "$id: caught ($n signatures, exit $rc, infra $infra) $(echo "$out" | grep "^VIOLATION" | head -1 | sed 's/.*sig=//' | cut -c1-90)"; else echo "$id: MISSED (exit $rc, infra $infra)"; fi
done
git -C $repo status --short | head -3
