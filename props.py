"""Per-property orchestration settings (shards, binary flavour, evidence texts)."""

PROPS = {
    "C16": dict(
        bin="plain", level="exploration", shards={"quick": 16, "thorough": 16},
        timeout={"quick": 600, "thorough": 3000},
        rule=("exhaustive enumeration of every right string over {a,B,+,*,/,;,space} up to a length bound crossed with "
              "every path over {a,A,b,/} up to a length bound, each pair evaluated through auth.Save/auth.Get/"
              "ValidatePermission and compared with an independently written reference matcher; plus structured random "
              "pattern lists (1-5 segments, up to 3 patterns) against random paths up to 6 segments. A pair is non-trivial "
              "when both the right string and the path lie in the judged domain (guide unambiguous: optional leading '/', "
              "no empty segments, '+' only as a whole segment, '*' only alone or last); pairs are distinct by construction "
              "of the enumeration. Unjudged pairs are executed for totality (no panic) only."),
        level_text=("Exhaustive bounded enumeration plus random structured inputs, every pair decided by a reference-model oracle "
                    "observing the real auth package; the property is a pure function of (right, path), so enumeration of a small "
                    "alphabet reaches every branch of the matcher"),
        level_note="trusted: the ~60-line reference matcher written from docs/config.md; judged domain excludes inputs the guide is silent on",
        technique="reference-model monitor over exhaustive bounded input enumeration (differential oracle)",
        assumptions=["the reference matcher encodes docs/config.md section 3.2 and the property statement",
                     "inputs where the guide is silent are counted as unjudged, never failed"],
    ),
}

PROPS["C17"] = dict(
    bin="plain", level="exploration", shards={"quick": 16, "thorough": 16},
    timeout={"quick": 600, "thorough": 3000},
    rule=("route tables built by random save/update/delete histories (non-canonical spellings included) over 10 nested/overlapping "
          "patterns; the first 256 table indices enumerate every subset of <=4 of the first 8 patterns; every table is queried with "
          "~900 request paths (<=3 segments over {a,b,c,ab,A}, with/without trailing '/', non-canonical spellings), each lookup "
          "repeated 16x (quick) / 64x (thorough) to expose map-iteration-order dependence; a case is distinct by its history string"),
    level_text=("Differential reference-model monitor over enumerated/small random tables: route.Match is a pure function of "
                "(table, path), so bounded enumeration with repetition reaches every branch incl. tie-breaks"),
    level_note="trusted: the 30-line reference resolver; the end-to-end part (URL asked of the camera, publish path) is exercised in C20",
    technique="reference-model monitor (differential oracle) over enumerated route tables and paths, repeated lookups",
    assumptions=["route URLs are non-empty", "reference resolver encodes the property statement"],
)

PROPS["C06"] = dict(
    bin="race", level="fault_enumeration", shards={"quick": 16, "thorough": 16},
    timeout={"quick": 600, "thorough": 3000},
    rule=("NAL/AU sequences (H.264 types 1-23 except 12, H.265 types 0-40, AAC AUs; size classes tiny/MTU/boundary{1399..1401,65535,65536,70000}/"
          "1-2 byte) packetised by the harness's own RFC 6184/7798/3640 packetiser with PRNG-chosen single/STAP-A|AP/FU-A|FU per unit, "
          "sequence numbers starting near 65535; fed to rtp.NewDemuxer with a recording FrameWriter and a sentinel unit. Loss cases: 2-4 "
          "fragmented units, faults = every single-loss position, pairs, runs, adjacent swaps, random multi-loss. A case is distinct by "
          "(codec, size class, set of packet kinds used, unit count, seq wrap) resp. (codec, fault pattern by fragment kind, unit count)"
          ' Sequences start anywhere in the 32-bit RTP timestamp range: a fifth of them cross 2^31 and a fifth wrap past 2^32 inside the sequence (differences are modular)'
          ' One case in seven uses runs of 14-63 consecutive AAC AUs grouped up to 64 per packet (AU-headers-length beyond one byte)'),
    level_text=("Generated workload + fault enumeration (loss/reorder positions inside fragmented units) against the real depacketisers; "
                "oracle = list equality with the source units / only-whole-units-in-order under loss, PTS arithmetic per RTP timestamp"),
    level_note="trusted: the harness packetiser (kit/rtpgen.go); DTS is not judged (not in the statement); a sender report arriving mid-stream re-bases the clock (ipchub synchronises to the first report) - outside the quantifier, unjudged",
    technique="runtime monitor: differential list-equality oracle over generated packetisations + enumerated loss/swap faults",
    assumptions=["parameter sets are supplied through the SDP so the depacketiser is ready from the first packet",
                 "filler data NAL (type 12) is excluded: dropped by design"],
)

PROPS["C03"] = dict(
    bin="race", level="exploration", shards={"quick": 16, "thorough": 16},
    timeout={"quick": 900, "thorough": 3000},
    rule=("forced interleavings through hook gates (a goroutine is held at a named point between two critical sections while the other "
          "party runs to completion): A stop(StopConsume|Stream.Close|Unregist) x delivery goroutine (5 orderings x RTP|FLV), B stream "
          "close x attach (5 orderings incl. attach-after-close), C Remove x RemoveAndCloseAll (2), D converter Close x converter loop "
          "(3 orderings x rtp demuxer|flv muxer|ts muxer), F source of a retired stream ends, each repeated; service part: clients on rtsp-tcp/ws-rtsp/wsp/http-flv/ws-flv/rtsp-udp x stream end by publisher disconnect/replacement/REST delete/UnregistAll; E concurrent random histories (2-4 workers, 1-3 streams, "
          "attach/stop/publish/close/replace) with seeded delays at 14 hook points. A case is distinct by its scenario name / history shape"
          " Service scenario replaced-then-old-consumers-stop: a second publisher displaces a stream that stays alive (its publisher is connected, six clients attached); the old stream's clients stop one by one and must be released from the OLD stream while two clients of the NEW stream keep receiving"
          ' The service part attaches two multicast members as well (their RTSP sessions must be closed when the stream ends)'),
    level_text=("Schedule exploration of the real media package: every named two-party ordering is forced deterministically with gates and "
                "observed, plus perturbed concurrent histories; oracle = close-exactly-once ledger, consumer count, goroutine enter/exit "
                "ledger, goroutine-profile state (parked in sync.Cond.Wait with no possible waker = violation; else inconclusive)"),
    level_note="library level (media, converters) plus a service-level part: real clients on six transports, four ways a stream ends, socket close + per-protocol counters + registry back to baseline",
    technique="runtime monitoring with hook-gated schedule enumeration + seeded perturbation; ledger/goroutine-state oracle; race detector informational",
    assumptions=["hook points lie between critical sections, so every forced ordering is one the Go scheduler can produce",
                 "'promptly' is decided on state (parked forever) not on wall-clock; watchdog expiry alone is inconclusive"],
)

PROPS["C02"] = dict(
    bin="race", level="exploration", shards={"quick": 16, "thorough": 16},
    timeout={"quick": 900, "thorough": 3000},
    rule=("frame sequences from the generator (GOPs of key + P pictures, 1-3 slices per picture, in-band parameter sets none / separate / "
          "aggregated with the first IDR slice / aggregated SPS+PPS packet, SEI, interleaved AAC and RTCP) packetised as single NAL, "
          "STAP-A/AP and FU-A/FU; (1) sequential: one consumer joins after exactly k packets for EVERY k of every sequence; (2) forced "
          "orderings of one publish with one join through gates at join.begin/snapshotted/registered and write.cached/sent, cache on/off; "
          "(3) seeded-delay stress of several joins racing a running publisher. cache_gop on and off, H.264 and H.265. A case is distinct "
          "by its sequence shape / forced ordering / join-window size"
          " FLV sequences draw the AAC AudioTagHeader byte from the eight values ipchub's packetiser writes (mono/stereo x 5.5/11/22/44 kHz)"
          " FLV through the real pipeline (c02_flvpipe.go): H.265 RTP in, FLV tags out of the stream's own depacketiser and muxer, random-access pictures of type IDR / BLA / CRA; a late FLV joiner's replay must start at the most recent random-access picture, flagged key"),
    level_text=("Reference-model monitor: for every join the received sequence must be P ++ G ++ L for some cut inside the join window "
                "(computed by a reference cache model from the generator's ground truth); exhaustive in the join position, schedule "
                "enumeration for the publish x join race"),
    level_note=("RTP-level consumers through media.Stream; the FLV variant (header tags re-stamped) is checked in C08's join part. Audio/RTCP inside the "
                "replayed GOP is allowed, not demanded"),
    technique="runtime monitoring: reference cache model over recorded deliveries; exhaustive join positions; hook-gated interleavings; seeded stress",
    assumptions=["generator flags (which packet carries SPS/PPS/VPS, which starts a key picture) are the ground truth"],
)

PROPS["C01"] = dict(
    bin="race", level="exploration", shards={"quick": 16, "thorough": 16},
    timeout={"quick": 900, "thorough": 3000},
    rule=("publish sequences of 20-900 unique-id packets over all four channels (payload sizes 0, 1-3, MTU, 65523 = largest frame, random) "
          "to media.Stream; (1) sequential scenarios with 1..64 recording consumers attaching/detaching at PRNG-chosen publish indices: exact "
          "oracle (record == published[attach:detach]) and a differential rerun of one consumer alone; (2) racy scenarios: publisher, attach "
          "and detach goroutines with seeded delays at 8 hook points, interval oracle on the shared logical clock. Distinct by (packet count "
          "class, consumer count)"
          ' Transports part: one stream is played over rtsp-tcp, ws-rtsp, wsp, rtsp-udp, multicast (shard 0), http-flv and ws-flv at once; the published sequence contains a back-to-back burst of 48 packets of 9-15 KB (more than the session write buffer within one flush tick); a torn interleaved byte stream is reported as such'
          ' Multicast: an earlier member plays and leaves before the judged member joins (the proxy is restarted per generation); an attached datagram consumer that is given nothing at all is a violation'
          ' Control channel: sender reports are published on the video control channel and must arrive intact on the negotiated RTCP destination of the RTSP/TCP and RTSP/UDP players (the UDP player binds its RTCP socket below its RTP port in even runs); on RTSP/TCP every report published between the first and the last video packet that player received must have arrived, on UDP at least one'
          ' A companion multicast member of the same generation joins before the judged member and leaves in the middle of the publication: the judged member must go on receiving'),
    level_text=("Recorded-history monitor over the real fan-out path: at-most-once, publish order, byte identity (hash at publish vs hash at "
                "delivery vs hash after the run), completeness over the attached interval, 1-vs-N independence"),
    level_note=("core (media package) part; per-transport delivery (RTSP/TCP, UDP, ws-rtsp, WSP, HTTP-FLV) is exercised at service level by "
                "kit server scenarios in C12/C13/C20 where the same unique-id oracle is applied to bytes read from real sockets"),
    technique="runtime monitoring: offline checker over recorded delivery logs with unique ids; seeded schedule perturbation; race detector informational",
    assumptions=["scenarios stay below the 1000-packet backlog limit, so nothing is dropped for backlog (dropping is C04's subject)"],
)

PROPS["C04"] = dict(
    bin="race", level="exploration", shards={"quick": 16, "thorough": 16},
    timeout={"quick": 1200, "thorough": 3400},
    rule=("per pattern: N=2500-17500 unique packets (video with a key frame every G video packets, G in {1,2,7,30,250,999,1000,1001,3000,none}, "
          "audio every 4th) published to media.Stream (RTP path, or FLV tags through WriteFlvTag) with four consumers attached: healthy, "
          "stalled (blocks inside Consume at PRNG delivery counts, released when the publisher reaches PRNG indices; long and short stalls), "
          "slow (sleeps per packet), panicking (k-th delivery). Distinct by (G, path, cache, number of stalls)"
          ' Patterns alternate H.264 and H.265 streams; a third of them start shortly below 2^32 so that the RTP timestamp wraps a few hundred packets in'
          ' FLV pipeline part (c04_flvpipe.go): a stalled and a healthy FLV consumer behind RTP -> depacketiser -> FLV muxer, one stream per key-picture kind (H.264 IDR; H.265 IDR_W_RADL, IDR_N_LP, BLA, CRA), key picture every 25/50/120 packets, stall released at two thirds of the publication: queue within limit + GOP + header tags, gaps begin and end at key pictures'),
    level_text=("Runtime monitor over the real per-consumer queues: publisher completion (goroutine state decides on watchdog), healthy record exact, "
                "stalled queue length sampled after every write against 1000+G, gap alignment of the stalled record to key-frame starts, "
                "panicking consumer detached and closed"),
    level_note="streams without key frames (G=none) are outside the statement's premise for the bound and counted as unjudged there",
    technique="runtime monitoring: queue-length sampling through a verif accessor + offline gap-alignment checker over unique-id delivery logs",
    assumptions=["publisher flow-controls against the healthy consumer only, so that consumer is never the one being dropped"],
)

PROPS["C05"] = dict(
    bin="race", level="exploration", shards={"quick": 16, "thorough": 16},
    timeout={"quick": 900, "thorough": 3400},
    rule=("(1) concurrent histories: 3-7 client goroutines x 4-10 operations (Regist of a fresh stream / Unregist / Close of an already "
          "registered one / Get) over 1-2 canonical paths written in 3-4 spellings each, with seeded delays at the regist and close hook "
          "points; call/return recorded on one logical clock at the API boundary and checked with porcupine (partitioned by canonical path) "
          "against a sequential registry model; plus quiescent-point checks (replaced stream closed or retire task posted, lookup never "
          "returns a closed stream, Count equals live set); (2) forced orderings Regist x Regist (gate between load and store), "
          "Unregist(retired) after Regist(successor), Close then Get; (3) sequential random histories (5-40 steps) with Get/Count/Infos "
          "against the model after every step; (4) the idle-close decision for 6 audience kinds x 2 close reasons. Distinct by history shape"
          " Spellings part: generated non-canonical spellings of one path (case, blanks, missing leading slash, doubled slashes, '.' elements and 'x/..' detours anywhere including as the last element), accepted by an independent canonicaliser, must all name one registry key (create/lookup/replace/unregister/count under three different spellings)"
          " Idle cases include 'HLS segment requested just now' (playlist refresh followed by a segment request) next to 'playlist requested just now'"
          ' Counts under concurrent stop: one consumer is detached twice at the same moment (first StopConsume held at media.remove.loaded); count, listing and idle decision must agree afterwards'),
    level_text=("Linearizability checking of recorded concurrent histories (porcupine) against a 10-line sequential model of the registry, "
                "plus forced schedules and model equality at quiescent points"),
    level_note="library level (media package); GetOrCreate races and the REST listing/DELETE are exercised in C20 / service-level scenarios",
    technique="linearizability checking of recorded histories (porcupine v1.3.0, P-compositional by path) + hook-gated forced orderings + reference model",
    assumptions=["each stream object is registered at most once (as the server does)",
                 "the model demands the statement literally: Close/Unregist of the current holder makes lookups return nothing"],
)

PROPS["C12"] = dict(
    bin="race", level="exploration", shards={"quick": 16, "thorough": 16},
    timeout={"quick": 1200, "thorough": 3400},
    rule=("request sequences over a 27-symbol alphabet {OPTIONS, DESCRIBE ok|missing, ANNOUNCE ok|bad sdp|no content-type, SETUP video|audio x "
          "tcp|udp|multicast x play|record, SETUP bad transport|unknown control, PLAY, RECORD, PAUSE, GET_PARAMETER, TEARDOWN, FOO}: exhaustive "
          "to length 2 (quick) / 3 (thorough) on the full alphabet, exhaustive to length 4 / 5 on a 10-symbol alphabet with one representative per "
          "automaton edge, plus 500 (quick) / 30000 (thorough) seeded random sequences of length 3-12; one fresh real connection per sequence (TCP; every 7th over ws-rtsp) to "
          "the in-process server while a real RECORD publisher feeds the source stream. Distinct by (transport, sequence)"
          " Multicast (shard 0): members SETUP RTP/AVP;multicast one after another on one stream and leave by TEARDOWN or disconnect; after each the stream's consumer count and the connection counter are back"
          ' Invalid transports: eight malformed / contradictory Transport headers, alone and followed by a well-formed parameter, as alphabet symbols and in directed DESCRIBE|ANNOUNCE, SETUP(bad), PLAY|RECORD, OPTIONS sequences'),
    level_text=("Reference-automaton monitor over real sockets: per request exactly one response (decided by CSeq order against an OPTIONS probe, "
                "never by timeout), CSeq echo, constant Session id, status class and successor state per the automaton, no media before 200 PLAY, "
                "no registration before 200 RECORD, counters/registry/consumers back to baseline after disconnect"),
    level_note="WSP is driven with a 12-symbol WRAP alphabet (exhaustive to length 2/3 + random); where the statement is silent (repeated PLAY/RECORD, WSP PAUSE while playing, switching DESCRIBE<->ANNOUNCE inside one session) any single response is accepted",
    technique="runtime monitoring: online trace checker against a reference automaton, exhaustive bounded request sequences on the real server",
    assumptions=["on TCP an unknown first method is closed by the port multiplexer (C19), so such sequences get an OPTIONS preamble"],
)

PROPS["C13"] = dict(
    bin="race", level="exploration", shards={"quick": 12, "thorough": 16},
    timeout={"quick": 1200, "thorough": 3400},
    race_escalate=[r"network/socket/buffered\."],
    rule=("per run: a real RECORD publisher pushes checksummed RTP frames (size classes 40-200, 1000-1400, 20000-60000, mixed) paced to at most 50 000 frames/s and 32 MB/s "
          "through the in-process server while one real player (TCP with client-chosen channels 4-7, ws-rtsp, or WSP control+data) issues "
          "600 (quick) / 4000 (thorough) OPTIONS/PLAY/GET_PARAMETER(/PAUSE) requests during delivery (requests start once the first frame arrived); on WSP, other WSP sessions on the same stream come and go "
          "meanwhile (session churn) and are held to the same oracle; seeded delays at the hook point between "
          "the 4-byte frame prefix and the payload. Distinct by (transport, size class)"),
    level_text=("Stream-parser monitor at the client boundary: every byte the player receives must parse as complete responses and complete "
                "'$' frames with valid payload checksums; every WebSocket message is exactly one item; race-detector reports inside "
                "buffered.Conn reached from the two writers are escalated to violations"),
    level_note="the hook point rtp.write.prefixed lies inside the session write lock on purpose and only ever carries delays",
    technique="runtime monitoring: independent stream parser + checksums on real sockets under schedule perturbation; Go race detector as sanitizer gate",
    assumptions=["publisher frames carry id+CRC so splicing is detected even when lengths happen to line up"],
)

PROPS["C11"] = dict(
    bin="race", level="exploration", shards={"quick": 16, "thorough": 16},
    timeout={"quick": 1500, "thorough": 3400},
    rule=("real service with auth on, three administrator-published source streams; per history 5-12 steps of user create/narrow/widen/delete "
          "(11 right strings around the paths: exact, '+', trailing '*', other case, unrelated), login, token refresh, token ageing (3 h through a "
          "verif accessor), invalid/absent tokens, wrong passwords; after every step 3 probes of the (user x path x entry point) matrix: RTSP "
          "Digest play and publish, ws-rtsp play, ANNOUNCE/RECORD inside a ws-rtsp session, WSP control, HTTP-FLV, WS-FLV, HLS playlist and "
          "segment, /api/v1 GET users / POST routes / DELETE stream; plus an attacker that derives the process counter from a disclosed "
          "Session id and tries 257 computed tokens, and a WSP data channel joining a foreign control channel. Distinct by "
          "(entry, action, credential kind, reference decision, outcome)"
          " A third of the HTTP-borne probes additionally claim to be the administrator in request headers a normal client never sends (the server's internal identity header under both spellings, X-Forwarded-User, Username); the reference verdict depends on the token alone"
          ' Four source paths: three inside the subtrees the rights name and one proper ancestor of them (two levels up)'
          " Directed: a user whose right covers '<stream>/+' but not the stream asks for the listed HLS segments with the extension in other spellings (.TS, .Ts, .tS)"),
    level_text=("Reference-monitor oracle: allow(user, action, path) from the table as last saved (C16 reference matcher) versus the outcome class "
                "(granted = media bytes / 2xx / registered stream; refused = 401/403) seen by scripted clients on real sockets"),
    level_note=("'a token cannot be computed from disclosed identifiers' is decided only for the implemented attacker strategy; stream query APIs "
                "(GET /api/v1/streams*) for non-administrators and the unauthenticated info calls are exercised but unjudged"),
    technique="runtime monitoring: reference authorization monitor over request histories against the real server; concrete attacker strategies",
    assumptions=["rights and paths are generated inside C16's judged domain", "token expiry is observed through a verif accessor that ages the token, not by waiting"],
)

PROPS["C20"] = dict(
    bin="race", level="fault_enumeration", shards={"quick": 16, "thorough": 16},
    timeout={"quick": 1500, "thorough": 3400},
    rule=("a scriptable fake RTSP camera behind a directory route; scripts = handshake step {CONNECT, OPTIONS, DESCRIBE, SETUP1, SETUP2, PLAY, "
          "PLAYING} x response kind {4xx, 5xx, malformed status line, garbage bytes, silence, RST, early EOF, 401 repeated, malformed SDP, "
          "SDP media section without formats} (inapplicable pairs dropped) with camera authentication none/Basic/Digest, plus success scripts "
          "(camera disconnects after 150 packets) per authentication kind; requester = HTTP-FLV or RTSP play; NetTimeout overridden to 1.2 s; "
          "after every script a second request must reach the camera again; plus 2-8 simultaneous first requests with seeded delays at the "
          "GetOrCreate/Regist hook points. Distinct by script name"
          " Success scripts also use an exact route whose camera URL carries a query string; the fake camera accepts Digest credentials only when the uri directive equals the Request-URI. Concurrent first requests: invariant 'open camera connections <= pull streams that are registered, have a consumer or had one while live', plus a forced ordering in which the first registered pull is displaced before its requester attaches"
          ' Single requester with a late pull goroutine: 300 ms delay at rtsp.pull.enter; the one request must cause one pull and the requester must receive media'),
    level_text=("Fault enumeration over the camera's behaviour at every handshake step against the real pull client and the real service: "
                "requester outcome (404 / orderly close / media), registry, RTSP connection counter, camera-side connection state and the "
                "pull goroutine ledger decide; a handshake goroutine parked in a network read long after NetTimeout is a violation"),
    level_note="camera disconnects 'at any time during play' are sampled at two packet counts; the HLS requester is not used (its handler polls for up to 22 s)",
    technique="runtime monitoring with fault injection by a scripted peer; ledger + goroutine-state oracle",
    assumptions=["NetTimeout is overridden through a verif accessor so silence scripts cost seconds, not 45 s",
                 "the 'later request pulls afresh' clause is checked with an HTTP-FLV request after each script"],
)

# checks whose texts are kept as JSON (props_json/<ID>.json)
import json as _json, os as _os, glob as _glob
for _f in sorted(_glob.glob(_os.path.join(_os.path.dirname(_os.path.abspath(__file__)), "props_json", "C*.json"))):
    _d = _json.load(open(_f))
    _id = _os.path.basename(_f)[:-5]
    _d.setdefault("shards", {"quick": 16, "thorough": 16})
    _d.setdefault("timeout", {"quick": 900, "thorough": 3000})
    PROPS[_id] = _d

# properties not claimed, with the reason (kept current)
NOT_APPLICABLE = {}
